package core

import (
	"encoding/json"
	"fmt"
	"go/token"
	"os"
	"path/filepath"
	"sort"
	"strings"
	"time"
)

// Verdicts of an obligation.
const (
	OK        = "ok"
	Violation = "violation"
	Undecided = "undecided"
)

// Obligation is one decided (or undecidable) instance of a rule.
// Identity is Rule + Construct, never a line number.
type Obligation struct {
	Rule      string `json:"rule"`
	Construct string `json:"construct"`
	Pos       string `json:"pos"`
	Verdict   string `json:"verdict"`
	Reason    string `json:"reason"`
	Arch      string `json:"arch,omitempty"`
}

func (o Obligation) Key() string { return o.Rule + "|" + o.Construct }

// Rule is one repository-specific check.
type Rule struct {
	ID       string
	Doc      string       // the rule text, quoted in evidence
	Min      int          // anti-vacuity: minimum number of obligations
	Thorough bool         // only in the thorough tier
	Arm64    bool         // also run on the GOARCH=arm64 program in the thorough tier
	Run      func(c *Ctx) // evaluates on c.Prog
	SelfTest func() error // optional: positive example that must be flagged
}

// Ctx is handed to a rule.
type Ctx struct {
	Prog *Program
	Tier string
	rule *Rule
	out  *[]Obligation
	// Stats for evidence
	Funcs map[string]bool
	// Keep, when set, restricts the obligations recorded to the constructs it accepts
	// (a rule re-registered under another id for the part that concerns one property).
	Keep func(construct string) bool
}

func (c *Ctx) add(verdict, construct string, pos token.Pos, format string, args ...interface{}) {
	if c.Keep != nil && !c.Keep(construct) {
		return
	}
	o := Obligation{Rule: c.rule.ID, Construct: construct, Pos: c.Prog.Pos(pos), Verdict: verdict,
		Reason: fmt.Sprintf(format, args...)}
	if c.Prog.GOARCH != "amd64" {
		o.Arch = c.Prog.GOARCH
	}
	*c.out = append(*c.out, o)
}

func (c *Ctx) OK(construct string, pos token.Pos, format string, args ...interface{}) {
	c.add(OK, construct, pos, format, args...)
}
func (c *Ctx) Bad(construct string, pos token.Pos, format string, args ...interface{}) {
	c.add(Violation, construct, pos, format, args...)
}
func (c *Ctx) Undecided(construct string, pos token.Pos, format string, args ...interface{}) {
	c.add(Undecided, construct, pos, format, args...)
}

// Check adds ok or violation depending on cond.
func (c *Ctx) Check(cond bool, construct string, pos token.Pos, okReason, badReason string) {
	if cond {
		c.OK(construct, pos, "%s", okReason)
	} else {
		c.Bad(construct, pos, "%s", badReason)
	}
}

// Analysed records a function (or other unit) as analysed, for evidence.
func (c *Ctx) Analysed(name string) {
	if c.Funcs == nil {
		c.Funcs = map[string]bool{}
	}
	c.Funcs[name] = true
}

// Finding is an entry of /verif/known_findings.json.
type Finding struct {
	Property  string `json:"property"`
	Rule      string `json:"rule"`
	Construct string `json:"construct"`
	What      string `json:"what"`
	Status    string `json:"status"` // "known" | "fixed"
	Commit    string `json:"commit,omitempty"`
	ID        string `json:"id,omitempty"`
}

func LoadFindings(path string) ([]Finding, error) {
	b, err := os.ReadFile(path)
	if err != nil {
		if os.IsNotExist(err) {
			return nil, nil
		}
		return nil, err
	}
	var fs []Finding
	if err := json.Unmarshal(b, &fs); err != nil {
		return nil, fmt.Errorf("%s: %w", path, err)
	}
	return fs, nil
}

// Result of evaluating one property.
type Result struct {
	Property    string
	Tier        string
	Seed        int64
	Obligations []Obligation
	RuleDocs    map[string]string
	RuleCounts  map[string]int
	Errors      []string // framework-level failures (vacuity, self-test, panic)
	Funcs       []string
	Packages    int
	Files       int
	Start       time.Time
	Explanation string
	Assumptions []string
}

// Evidence is the schema-conformant file written per property.
type Evidence struct {
	PropertyID  string                 `json:"property_id"`
	Tier        string                 `json:"tier"`
	Seed        int64                  `json:"seed"`
	Level       string                 `json:"level"`
	Coverage    map[string]interface{} `json:"coverage"`
	Assumptions []string               `json:"assumptions"`
	WallS       float64                `json:"wall_s"`
	Violations  int                    `json:"violations"`
}

// Finish prints verdict lines, writes evidence and the violations file, and
// returns the process exit code: 0 held, 1 violation, 2 check broken.
func (r *Result) Finish(verifDir string, findings []Finding) int {
	sort.SliceStable(r.Obligations, func(i, j int) bool {
		a, b := r.Obligations[i], r.Obligations[j]
		if a.Rule != b.Rule {
			return a.Rule < b.Rule
		}
		if a.Construct != b.Construct {
			return a.Construct < b.Construct
		}
		return a.Arch < b.Arch
	})
	known := map[string]Finding{}
	for _, f := range findings {
		if f.Property == r.Property && f.Status == "known" {
			known[f.Rule+"|"+f.Construct] = f
		}
	}
	var viol, undec, knownHit []Obligation
	seenKnown := map[string]bool{}
	discharged := 0
	for _, o := range r.Obligations {
		switch o.Verdict {
		case OK:
			discharged++
		case Violation:
			if f, ok := known[o.Key()]; ok {
				if !seenKnown[o.Key()] {
					seenKnown[o.Key()] = true
					fmt.Printf("KNOWN-FINDING: property=%s %s [%s %s] %s\n", r.Property, f.ID, o.Rule, o.Construct, f.What)
				}
				knownHit = append(knownHit, o)
			} else {
				viol = append(viol, o)
			}
		default:
			undec = append(undec, o)
		}
	}
	// a listed known finding that no longer fires is reported (not an error:
	// the tree may have been repaired), so the file can be updated by hand.
	for k, f := range known {
		if !seenKnown[k] {
			fmt.Printf("NOTE: known finding %s [%s %s] no longer reported on this tree\n", f.ID, f.Rule, f.Construct)
		}
	}
	evDir := filepath.Join(verifDir, "evidence")
	_ = os.MkdirAll(evDir, 0o755)
	code := 0
	violPath := filepath.Join(evDir, r.Property+".violations.json")
	_ = os.Remove(violPath)
	if len(viol) > 0 {
		code = 1
		b, _ := json.MarshalIndent(map[string]interface{}{"property": r.Property, "tier": r.Tier, "violations": viol}, "", " ")
		_ = os.WriteFile(violPath, append(b, '\n'), 0o644)
		for _, o := range viol {
			fmt.Printf("  violation: %s %s at %s: %s\n", o.Rule, o.Construct, o.Pos, o.Reason)
		}
		fmt.Printf("VIOLATION property=%s replay=%s\n", r.Property, violPath)
	}
	if len(undec) > 0 || len(r.Errors) > 0 {
		for _, o := range undec {
			fmt.Printf("UNDECIDED property=%s %s %s at %s: %s\n", r.Property, o.Rule, o.Construct, o.Pos, o.Reason)
		}
		for _, e := range r.Errors {
			fmt.Printf("CHECK-ERROR property=%s %s\n", r.Property, e)
		}
		if code == 0 {
			code = 2
		}
	}

	// evidence
	samples := []interface{}{}
	perRule := map[string]int{}
	for _, o := range r.Obligations {
		if perRule[o.Rule] < 3 {
			perRule[o.Rule]++
			samples = append(samples, o)
		}
	}
	rules := []map[string]interface{}{}
	var ids []string
	for id := range r.RuleDocs {
		ids = append(ids, id)
	}
	sort.Strings(ids)
	for _, id := range ids {
		rules = append(rules, map[string]interface{}{"rule": id, "text": r.RuleDocs[id], "obligations": r.RuleCounts[id]})
	}
	kf := []string{}
	for _, o := range knownHit {
		kf = append(kf, o.Rule+" "+o.Construct)
	}
	funcs := r.Funcs
	if len(funcs) > 400 {
		funcs = append(append([]string{}, funcs[:400]...), fmt.Sprintf("… %d more", len(r.Funcs)-400))
	}
	ev := Evidence{
		PropertyID: r.Property, Tier: r.Tier, Seed: r.Seed, Level: "other",
		Coverage: map[string]interface{}{
			"explanation":            r.Explanation,
			"obligations":            len(r.Obligations),
			"discharged":             discharged,
			"undecided":              len(undec),
			"known_findings_matched": kf,
			"rules":                  rules,
			"samples":                samples,
			"packages_loaded":        r.Packages,
			"files_parsed":           r.Files,
			"units_analysed":         len(r.Funcs),
			"units":                  funcs,
			"checker_cmd":            "/verif/bin/check " + r.Property + " " + r.Tier,
			"trusted_base":           []string{"go/types type checker", "golang.org/x/tools v0.29.0 (go/packages, go/cfg, go/ssa, vta)", "the rule tables in /verif/sa/rules"},
			"framework_errors":       r.Errors,
		},
		Assumptions: r.Assumptions,
		WallS:       time.Since(r.Start).Seconds(),
		Violations:  len(viol),
	}
	b, _ := json.MarshalIndent(ev, "", " ")
	if err := os.WriteFile(filepath.Join(evDir, r.Property+".json"), append(b, '\n'), 0o644); err != nil {
		fmt.Printf("CHECK-ERROR property=%s cannot write evidence: %v\n", r.Property, err)
		if code == 0 {
			code = 2
		}
	}
	fmt.Printf("%s tier=%s obligations=%d discharged=%d known=%d violations=%d undecided=%d rules=%s wall=%.1fs\n",
		r.Property, r.Tier, len(r.Obligations), discharged, len(knownHit), len(viol), len(undec),
		strings.Join(ids, ","), time.Since(r.Start).Seconds())
	return code
}

// NewDevCtx makes a context for developer dumps (no rule attached).
func NewDevCtx(p *Program) *Ctx {
	var sink []Obligation
	return &Ctx{Prog: p, Tier: "thorough", rule: &Rule{ID: "dev"}, out: &sink, Funcs: map[string]bool{}}
}
