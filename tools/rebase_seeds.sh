#!/bin/bash
# For every kept seed whose patch.diff no longer applies to /repo's HEAD (fix commits moved the
# context), re-create the patch with a 3-way apply in a scratch worktree, check that the tree
# builds, and replace patch.diff (the old one is kept as patch.orig.diff). Reports what it did.
export GOPROXY=off GOSUMDB=off GOTOOLCHAIN=local GOFLAGS=
for d in /verif/seeded/*/; do
  id=$(basename $d)
  if git -C /repo apply --check $d/patch.diff 2>/dev/null; then continue; fi
  W=$(mktemp -d /tmp/rebase.XXXXXX); rmdir $W
  git -C /repo worktree add -q --detach $W HEAD || { echo "$id: cannot create worktree"; continue; }
  if (cd $W && git apply --3way $d/patch.diff 2>/dev/null); then
    if (cd $W && git diff --name-only --diff-filter=U | grep -q .); then echo "$id: CONFLICT (needs manual rebase)";
    elif (cd $W && go build ./... 2>/dev/null); then
      [ -f $d/patch.orig.diff ] || cp $d/patch.diff $d/patch.orig.diff
      (cd $W && git diff HEAD) > $d/patch.diff; echo "$id: rebased"
    else echo "$id: rebased patch does not build"; fi
  else echo "$id: 3-way apply failed (needs manual rebase)"; fi
  git -C /repo worktree remove --force $W
done
git -C /repo worktree prune
