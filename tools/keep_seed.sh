#!/bin/bash
# usage: keep_seed.sh <prop> <k> [root=/tmp/wt] [dstk=k] -- copies a confirmed seed from <root>/<prop>/_seed into /verif/seeded/<prop>-<dstk>/
ID=$1; K=$2; ROOT=${3:-/tmp/wt}; DK=${4:-$K}; S=$ROOT/$ID/_seed; D=/verif/seeded/$ID-$DK
grep -q "RESULT confirmed" $S/confirm$K.log || { echo "$ID/$K not confirmed"; exit 1; }
mkdir -p $D
cp $S/patch$K.diff $D/patch.diff
if [ -d $S/demo$K ]; then rm -rf $D/demo; cp -r $S/demo$K $D/demo; fi
[ -f $S/demo${K}_test.go.txt ] && cp $S/demo${K}_test.go.txt $D/
python3 - "$S/meta$K.json" "$S/confirm$K.log" "$D/meta.json" "$ID" <<'PY'
import json,sys
try: m=json.load(open(sys.argv[1]))
except Exception as e: m={"summary":"(agent meta unreadable: %s)"%e}
log=open(sys.argv[2]).read()
m["property"]=sys.argv[4]
m["breaks"]=sys.argv[4]
m["confirmed_by_me"]={"how":"tools/confirm_seed.sh in the scratch worktree: git apply patch; go build ./...; demo exits non-zero with the patch and 0 on the clean tree; go test -vet=off -count=1 ./... (main module) and loader module pass with the patch",
  "log_tail":[l for l in log.splitlines() if l.startswith(("clean demo","mutated demo","tests exit","RESULT"))]}
json.dump(m,open(sys.argv[3],'w'),indent=1)
PY
echo kept $D
