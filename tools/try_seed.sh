#!/bin/bash
# usage: try_seed.sh <patch.diff> [props]   -- runs the static checks on a scratch copy of /repo with the patch applied
# (scratch copy outside /repo and /verif, removed afterwards; evidence goes to a scratch dir, not /verif/evidence)
PATCH=$(readlink -f "$1"); PROPS=${2:-all}; TIER=${3:-quick}
S=$(mktemp -d /tmp/seedrun.XXXXXX)
rsync -a --exclude .git --exclude _seed /repo/ $S/repo/
mkdir -p $S/verif && cp /verif/known_findings.json $S/verif/
( cd $S/repo && patch -p1 -s < "$PATCH" ) || { echo "PATCH-FAILED"; rm -rf $S; exit 3; }
/verif/bin/sonicsa -repo $S/repo -verif $S/verif -prop "$PROPS" -tier $TIER 2>&1 | grep -v "^KNOWN-FINDING\|^NOTE" | sed "s#$S/##g"
rm -rf $S
