#!/bin/bash
# parallel variant of seed_matrix.sh: runs every kept seed against all static checks (4 at a time)
# and writes /verif/seeded/MATRIX.md. Do not rebuild bin/sonicsa or change /repo while it runs.
OUT=/verif/seeded/MATRIX.md
T=$(mktemp -d /tmp/matrix.XXXXXX)
one() {
  d=$1; T=$2
  id=$(basename $d); prop=${id%-*}
  [ -f $d/patch.diff ] || exit 0
  res=$(/verif/tools/try_seed.sh $d/patch.diff all 2>&1)
  if echo "$res" | grep -q "PATCH-FAILED\|load failed"; then det="(patch no longer applies / does not build)"; own="n/a";
  else
    det=$(echo "$res" | grep "violation:" | sed -E 's/^ *violation: ([A-Za-z0-9]+) .*/\1/' | sort -u | tr '\n' ' ')
    props=$(echo "$res" | grep "^VIOLATION" | sed -E 's/VIOLATION property=([A-Z0-9]+).*/\1/' | sort -u | tr '\n' ' ')
    own=no; echo " $props" | grep -q " $prop " && own=yes
    det="$props: $det"
    [ -z "$props" ] && det="-- not detected --"
  fi
  echo "| $id | $prop | $det | $own |" > $T/$id.row
}
export -f one
ls -d /verif/seeded/C*/ | xargs -P 4 -I{} bash -c 'one {} '$T
{ echo "| seed | breaks | detected by (property: rules) | own property detected |"; echo "|---|---|---|---|"; cat $(ls $T/*.row | sort -V); } > $OUT
rm -rf $T
tail -3 $OUT
