#!/bin/bash
# usage: try_benign.sh <patch.diff>   -- developer aid: runs ALL checks in one process on a scratch copy of /repo with a
# behaviour-preserving patch applied; anything but "violations=0 undecided=0" for every property is a false alarm to look at.
PATCH=$(readlink -f "$1"); TIER=${2:-quick}
S=$(mktemp -d /tmp/benignrun.XXXXXX)
rsync -a --exclude .git --exclude _seed --exclude _benign --exclude _hunt /repo/ $S/repo/
mkdir -p $S/verif && cp /verif/known_findings.json $S/verif/
( cd $S/repo && patch -p1 -s < "$PATCH" ) || { echo "PATCH-FAILED"; rm -rf $S; exit 3; }
/verif/bin/sonicsa -repo $S/repo -verif $S/verif -prop all -tier $TIER > $S/out.txt 2>&1; rc=$?
grep -v "^KNOWN-FINDING\|^NOTE" $S/out.txt | grep "^  violation:\|^UNDECIDED\|CHECK-ERROR\|panic" | sed "s#$S/##g" | cut -c1-420 | sort | uniq -c | sort -rn | head -40
echo "rc=$rc $(grep -c 'violations=0 undecided=0' $S/out.txt) properties silent of $(grep -c 'tier=' $S/out.txt)"
rm -rf $S
