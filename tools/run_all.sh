#!/bin/bash
# runs every claimed check (quick or given tier) against /repo and reports exit codes; rewrites /verif/evidence/*.json
TIER=${1:-quick}
for id in $(jq -r '.checks[].property_id' /verif/MANIFEST.json); do
  out=$(/verif/bin/check $id $TIER 2>&1); rc=$?
  echo "$id rc=$rc $(echo "$out" | tail -1)"
  [ $rc -ne 0 ] && echo "$out" | grep -v "^KNOWN" | head -5
done
