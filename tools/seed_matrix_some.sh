#!/bin/bash
# usage: seed_matrix_some.sh <seed-id>...   -- re-runs only the named kept seeds against all static checks
# (8 at a time) and replaces/adds their rows in /verif/seeded/MATRIX.md. Same caveats as seed_matrix_par.sh.
OUT=/verif/seeded/MATRIX.md
T=$(mktemp -d /tmp/matrix.XXXXXX)
one() {
  d=/verif/seeded/$1; T=$2
  id=$(basename $d); prop=${id%-*}
  [ -f $d/patch.diff ] || exit 0
  res=$(/verif/tools/try_seed.sh $d/patch.diff all 2>&1)
  if echo "$res" | grep -q "PATCH-FAILED\|load failed"; then det="(patch no longer applies / does not build)"; own="n/a";
  else
    det=$(echo "$res" | grep "violation:" | sed -E 's/^ *violation: ([A-Za-z0-9]+) .*/\1/' | sort -u | tr '\n' ' ')
    props=$(echo "$res" | grep "^VIOLATION" | sed -E 's/VIOLATION property=([A-Z0-9]+).*/\1/' | sort -u | tr '\n' ' ')
    own=no; echo " $props" | grep -q " $prop " && own=yes
    det="$props: $det"
    [ -z "$props" ] && det="-- not detected --"
  fi
  echo "| $id | $prop | $det | $own |" > $T/$id.row
}
export -f one
printf '%s\n' "$@" | xargs -P 8 -I{} bash -c 'one {} '$T
python3 - "$OUT" $T <<'PY'
import sys,os,re
out,t=sys.argv[1:3]
rows={}
for l in open(out).read().splitlines()[2:]:
    m=re.match(r'\| (\S+) \|',l)
    if m: rows[m.group(1)]=l
for f in os.listdir(t):
    l=open(os.path.join(t,f)).read().strip(); rows[f[:-4]]=l
def key(i):
    p,k=i.rsplit('-',1); return (p,int(k))
with open(out,'w') as f:
    f.write("| seed | breaks | detected by (property: rules) | own property detected |\n|---|---|---|---|\n")
    for i in sorted(rows,key=key): f.write(rows[i]+"\n")
PY
cat $T/*.row
rm -rf $T
