#!/bin/bash
# runs every kept seed (/verif/seeded/*/patch.diff) against all static checks on a scratch copy of /repo
# and writes /verif/seeded/MATRIX.md (seed, property it breaks, checks that report a VIOLATION, rules).
OUT=/verif/seeded/MATRIX.md
echo "| seed | breaks | detected by (property: rules) | own property detected |" > $OUT.tmp
echo "|---|---|---|---|" >> $OUT.tmp
for d in /verif/seeded/*/; do
  id=$(basename $d); prop=${id%-*}
  [ -f $d/patch.diff ] || continue
  res=$(/verif/tools/try_seed.sh $d/patch.diff all 2>&1)
  if echo "$res" | grep -q "PATCH-FAILED\|load failed"; then det="(patch no longer applies / does not build)"; own="n/a";
  else
    det=$(echo "$res" | grep "violation:" | sed -E 's/^ *violation: ([A-Za-z0-9]+) .*/\1/' | sort -u | tr '\n' ' ')
    props=$(echo "$res" | grep "^VIOLATION" | sed -E 's/VIOLATION property=([A-Z0-9]+).*/\1/' | sort -u | tr '\n' ' ')
    own=no; echo " $props" | grep -q " $prop " && own=yes
    det="$props: $det"
    [ -z "$props" ] && det="-- not detected --"
  fi
  echo "| $id | $prop | $det | $own |" >> $OUT.tmp
done
mv $OUT.tmp $OUT
cat $OUT
