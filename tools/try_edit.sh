#!/bin/bash
# usage: try_edit.sh <props> <file-relative-to-repo> <python-expr old=>new ...>   (developer aid: one-off mutants on a scratch copy)
PROPS=$1; FILE=$2; OLD=$3; NEW=$4
S=$(mktemp -d /tmp/editrun.XXXXXX)
rsync -a --exclude .git /repo/ $S/repo/
mkdir -p $S/verif && cp /verif/known_findings.json $S/verif/
python3 - "$S/repo/$FILE" "$OLD" "$NEW" <<'PY' || { rm -rf $S; exit 3; }
import sys
p,old,new=sys.argv[1:4]
s=open(p).read()
if s.count(old)<1: print("OLD NOT FOUND"); sys.exit(1)
open(p,'w').write(s.replace(old,new,1))
PY
(cd $S/repo && GOFLAGS= go build ./... 2>&1 | head -5)
/verif/bin/sonicsa -repo $S/repo -verif $S/verif -prop "$PROPS" -tier ${TIER:-quick} 2>&1 | grep -v "^KNOWN-FINDING\|^NOTE" | grep -i "violation:\|tier=\|ERROR\|UNDEC" | cut -c1-400 | sed "s#$S/##g"
rm -rf $S
