#!/bin/bash
# usage: confirm_seed.sh <worktree> <k>    (confirms _seed/patch<k>.diff + demo<k>)
# Verifies in the scratch worktree: patch applies, library builds, demo FAILS with the patch,
# existing tests PASS with the patch, demo PASSES without it. Writes _seed/confirm<k>.log
export GOPROXY=off GOSUMDB=off GOTOOLCHAIN=local
WT=$1; K=$2; LOG=$WT/_seed/confirm$K.log
cd "$WT" || exit 2
exec >"$LOG" 2>&1
git checkout -q -- . ; git status --short | grep -v '^??' 
echo "== clean demo"; 
if [ -d _seed/demo$K ]; then DEMO="go run ./_seed/demo$K"; else DEMO=$(jq -r .demo_cmd _seed/meta$K.json); fi
echo "demo cmd: $DEMO"
( eval "$DEMO" ) >/dev/null 2>&1; C0=$?; echo "clean demo exit=$C0"
echo "== apply"; git apply _seed/patch$K.diff || { echo "RESULT apply-failed"; exit 1; }
go build ./... || { echo "RESULT build-failed"; git checkout -q -- .; exit 1; }
( eval "$DEMO" ) >_seed/demo$K.out 2>&1; C1=$?; echo "mutated demo exit=$C1"; tail -5 _seed/demo$K.out
echo "== tests (main module)"; go test -vet=off -count=1 -timeout 90m ./... 2>&1 | grep -v "^ok\|no test files" | tail -20; T1=${PIPESTATUS[0]}
echo "== tests (loader)"; (cd loader && go test -vet=off -count=1 ./... 2>&1 | grep -v "^ok\|no test files" | tail -5; exit ${PIPESTATUS[0]}); T2=$?
git checkout -q -- .
echo "tests exit main=$T1 loader=$T2"
if [ $C0 -eq 0 ] && [ $C1 -ne 0 ] && [ $T1 -eq 0 ] && [ $T2 -eq 0 ]; then echo "RESULT confirmed"; else echo "RESULT rejected clean=$C0 mutated=$C1 tests=$T1/$T2"; fi
