#!/usr/bin/env python3
"""Regenerates /verif/MANIFEST.json from the table below (kept next to the checker so
that the claims, the rule lists (sonicsa -list) and the manifest do not drift)."""
import json, subprocess, sys

CLAIMS = {
 # id: (technique, level text, level note, design_ref)
 "C18": ("AST+types: option-bit wiring followed by object identity (Config field -> exported constant -> canonical bit -> setter)",
         "Static necessary-condition check: every Config field, setter and exported option constant is resolved by object through its initialiser chain to one canonical bit; decides 'each switch reaches its own bit, and only that bit, at every layer'. Does not decide value-level behaviour of the consumers.",
         "Trusts go/types constant/object resolution and the frozen wiring table (16 fields, 13 setters); linux/amd64 (thorough: +arm64). 'No other effect' at the value level is not decided.",
         "DESIGN.md §3.1, §4 C18"),
}

NOT_YET = {}

def main():
    props = [json.loads(l) for l in open('/verif/properties.jsonl')]
    checks = []
    na = []
    for p in props:
        pid = p['id']
        if pid in CLAIMS:
            tech, text, note, ref = CLAIMS[pid]
            checks.append({
                "property_id": pid,
                "quick_cmd": f"/verif/bin/check {pid} quick",
                "thorough_cmd": f"/verif/bin/check {pid} thorough",
                "evidence_file": f"/verif/evidence/{pid}.json",
                "replay_cmd_template": "/verif/bin/check --replay {path}",
                "engine": "sonicsa",
                "level_claimed": {"category": "other", "text": text, "design_ref": ref},
                "level_note": note,
                "technique": "static analysis: " + tech,
            })
        else:
            na.append({"property_id": pid, "reason": NOT_YET.get(pid, "static rules for this property are designed (DESIGN.md §4) but not built yet in this round; nothing is claimed until the checker exists")})
    m = {
        "version": 1,
        "setup_cmd": "cd /verif/sa && GOFLAGS=-mod=mod GOPROXY=off GOSUMDB=off GOTOOLCHAIN=local go build -o /verif/bin/sonicsa ./cmd/sonicsa",
        "hooks": {"guard": "verif", "enable": "none needed: the checks only read /repo's source (go/packages type-check); nothing in /repo is built with a tag or executed",
                  "baseline_off_cmd": "cd /repo && go test -vet=off -count=1 ./... && cd loader && go test -vet=off -count=1 ./...",
                  "source_commits": [], "add_only": True},
        "engines": [{"name": "sonicsa", "path": "/verif/sa", "serves_properties": sorted(CLAIMS),
                     "kind_free_text": "repository-specific static analyser (go/packages + go/types + go/cfg + go/ssa/VTA, x/tools v0.29.0): rule engines wire/irt/asm/own/lock/const/sib/flow producing obligations keyed by rule+construct"}],
        "checks": checks,
        "not_applicable": na,
        "notes": "All checks are static (source-only) necessary-condition checks at level 'other'; see DESIGN.md. known_findings.json lists genuine defects (known/fixed).",
    }
    json.dump(m, open('/verif/MANIFEST.json', 'w'), indent=1)
    print("claimed:", sorted(CLAIMS), "not_applicable:", [x['property_id'] for x in na])

main()
