#!/usr/bin/env python3
"""Regenerates /verif/MANIFEST.json from the table below (kept next to the checker so
that the claims, the rule lists (sonicsa -list) and the manifest do not drift)."""
import json, subprocess, sys

CLAIMS = {
 # id: (technique, level text, level note, design_ref)
 "C02": ("must-pass-through on entry points (AST/CFG): trailing check after a validating native; constant relations",
         "Static necessary-condition check: each JSON-consuming entry point performs a trailing check on its success path after a validating native (ValidateOne / SkipOne with flag word 0), and the nesting limit is one constant in every layer. The accept language itself lives in native byte arrays and is not decided.",
         "Trusts that native ValidateOne/SkipOne validate structure; Get/NewRaw trailing bytes are a recorded known finding (F-4).",
         "DESIGN.md §3.5 F-trailing, §4 C02"),
 "C08": ("guarded-by analysis of all package-level state: locksets over go/cfg, atomic-only sinks, init-only writers, RCU/copy-on-write freshness",
         "Static necessary-condition check: every package-level variable written after init is in a reviewed class (mutex-guarded, atomic-only, init-only, hook) whose condition is re-proved on each run; the RCU program cache is published atomically under its mutex and only fresh copies are mutated. Interleavings are not explored.",
         "Trusts sync/atomic, sync.Mutex, sync.Pool; objects handed to natives are assumed unshared. Value-level determinism under concurrency is not decided.",
         "DESIGN.md §3.4 L1/L2, §4 C08"),
 "C10": ("constant/layout relations via go/types Sizes and constant evaluation; emitter-template extraction for frame adjustments and the frame-pointer chain; heap-pointer dataflow over the emitted templates (write barrier); rooting of pointers embedded in IR",
         "Static necessary-condition check: GC pointer bitmaps equal the generated functions' parameter words, stack pre-growth covers generated+native frames, prologue/epilogue/Load share one frame constant, hard-coded state-stack offsets equal struct offsets; BP is saved at, pointed to and restored from one slot in the three generated frames; heap pointers are stored to non-stack memory only inside the write-barrier helpers; pointers stored in IR instructions are not addresses of function locals.",
         "Trusts types.SizesFor(gc,amd64) and the asm2asm-generated _stack__ constants. pcsp/funcdata tables, preemption/stack-move safety per instruction are not decided.",
         "DESIGN.md §3.6 K1-K3, §4 C10"),
 "C13": ("sibling agreement of the SSE/AVX2 dispatch tables and generated export rows (AST set extraction, type identity)",
         "Dispatch clause only: both dispatchers assign the same variables, each once, from their own package and the identically named routine; export rows are identical in shape. Equality of the two compiled variants is NOT decided.",
         "Byte arrays of the natives are not analysed (no tool in the sandbox reads them).",
         "DESIGN.md §3.6 S2, §4 C13"),
 "C14": ("sibling agreement of the two key-lookup paths; effect-freedom of lookup methods; grammar-decision parity of the parser and the Preorder traverser",
         "Thin structural clauses: the indexed and the linear key lookup implement the same duplicate-key policy (first occurrence), and lookup methods are effect-free on their receiver; ast.Preorder's traverser takes the same input-dependent decisions (token-type and delimiter switches, cursor/EOF conditions) as the Parser it mirrors. Whether the native search lands on the right bytes is NOT decided.",
         "native get_by_path/skip are byte arrays; typed accessor values are runtime values.",
         "DESIGN.md §3.6 S5, §4 C14"),
 "C15": ("sibling agreement (duplicate-key policy), must-touch pairing of index maintenance, must-precede guard of mutators, effect-freedom of lookups, index-domain rule (physical slots vs logical length)",
         "Thin structural clauses of the lazy tree: one duplicate-key policy, every slot writer maintains the key index, each mutator forces the parsed form before its first store, lookups never write, slot loops are bounded by the container's own slot count. Equality with an ordered-map model over histories is NOT decided.",
         "Operation histories are not explored; only the mechanisms that make laziness unobservable are checked.",
         "DESIGN.md §3.6 S5/S8/S9, §4 C15"),
 "C16": ("lockset analysis over go/cfg of the per-node RWMutex discipline; publication-order and whole-node-store rules",
         "Static necessary-condition check: raw text is read only under the node lock, the lazy-parse result is published atomically (fields first, type last) and never replaces the held mutex, load-once children carry their own lock, lookups are effect-free. Interleavings are not explored.",
         "Trusts sync.RWMutex; LoadAll / parseRaw(full) are exclusive by documented contract.",
         "DESIGN.md §3.4 L3, §4 C16"),
 "C17": ("error-propagation dataflow on go/cfg (must-propagate before redefinition/exit, nil-branch discharge), reaching-definition freshness of read offsets, must-pass-through progress rule",
         "Static necessary-condition check of the stream codec's error/ownership clauses: no reader/writer error is dropped or shadowed, the sticky error discipline holds, Decode cannot succeed without progress, read offsets are fresh on every path, the framed value is copied, the short-write loop is well formed. Value-sequence equality over chunkings is NOT decided.",
         "Assumes readers repeat a delayed error on the next Read (encoding/json's idiom).",
         "DESIGN.md §3.5 F-errdrop, §4 C17"),
 "C18": ("AST+types: option-bit wiring followed by object identity (Config field -> exported constant -> canonical bit -> setter -> consumer), shim delegation",
         "Static necessary-condition check: every Config field, setter and exported option constant is resolved by object through its initialiser chain to one canonical bit; each bit keeps its consumers in both executors; entry-point shims delegate to ConfigDefault in order. Value-level 'no other effect' is not decided.",
         "Trusts go/types constant/object resolution and the frozen wiring tables (16 fields, 13 setters, consumer table). optdec ignoring UseUnicodeErrors is a recorded known finding (F-7).",
         "DESIGN.md §3.1, §4 C18"),
 "C01": ("abstract interpretation of the jitdec IR compiler's source over the emitted IR template (go/cfg-equivalent path enumeration): label resolution, state-stack balance, depth tags; opcode totality; decision-sequence cross-check of the field resolver against encoding/json's source in GOROOT",
         "Static necessary-condition check of the decoder's compiled programs: on every Go-level path of every compile* function each emitted branch is pinned or handed on, the state stack is balanced on the emitted control flow, nesting is tagged, and every opcode has its handler; sonic's copy of encoding/json's field resolver (typeFields and helpers) takes every branch decision and call of the GOROOT original in the same order. Decoded values, the comparator closures of the resolver and natives are NOT decided.",
         "Trusts the emitter-DSL model (add/chr/int/rtt/pin/rel/tag) and the branch-op table, which is re-derived from the x86 handlers on every run.",
         "DESIGN.md §3.2 I0-I3, §4 C01"),
 "C05": ("forward dataflow over emitted x86 templates (bytes proven available at the input cursor), linear-form abstract interpretation of cursor/offset arithmetic in the templates, go/cfg dataflow for raw-pointer reads, constant relations for the padded copy",
         "Go/generator side only: every load of the JIT decoder templates through (IP)(IC) is covered by a bound check since IC last moved; text handed on as (IP+s, length) has length IC-s+c ending at or before the cursor and never IC+s; every raw *(*byte) read in ast/decode.go and utils/skip.go is dominated by p < end; optdec parses a private copy with >= 64 padding bytes. Reads inside the native routines are NOT decided (byte arrays).",
         "A handler's first access may rely on IC < IL established by the preceding lspace opcode. The natives' own SIMD loads and tails are out of reach of this technique in this sandbox.",
         "DESIGN.md §4 C05"),
 "C06": ("pool typestate with alias tokens, path-sensitive over go/cfg; copy-before-retain instances; output-space budget dataflow over the emitted x86 encoder templates; input-pointer taint dataflow over the emitted x86 decoder templates (CopyString); audit of reference-accessor uses in optdec",
         "Static necessary-condition check: nothing is used after it was put back to a pool and no pooled backing array escapes to the caller; the []byte entry points copy before retaining; every store / native writer of the JIT encoder is covered by a reservation (check_size) since RL last advanced; in the JIT decoder templates every register that points into the input is stored or boxed only on paths that tested CopyString off. That natives honour the capacity they are told is NOT decided.",
         "Alias summaries: append/HTMLEscape/CorrectWith/Quote results alias their first argument; runtime-sized reservations (check_size_r) are trusted to be sized correctly. A reference passed to an unknown helper is treated as a transient use (D3).",
         "DESIGN.md §3.3, §3.2 A1, §4 C06"),
 "C07": ("constant/layout relations and guard-bound agreement on emitted templates; clamp rules on the error-excerpt arithmetic; reset-at-pool-boundary rule; depth-tag rule; recursion-cycle triage over the VTA call graph (SCCs) with a structural depth-guard check",
         "Static necessary-condition check of the guards that turn hostile input into errors: stack bounds equal array sizes in every executor (encoder JIT/VM, jitdec, generic decoder), pooled stacks are reset, nesting is tagged at compile time, error excerpts are clamped for any position; every recursion cycle among sonic functions is reviewed and the input-driven ones must pass a depth guard (compare with MAX_RECURSE, return, increment) on every cycle. Faults inside generated/native code and native termination are NOT decided.",
         "Recursion classes other than `guarded` (bounded by an earlier pass, type-structure, loader-internal) rest on the reviewed triage table; unbounded ast cycles are recorded findings F-21/F-22. Recursion inside JIT-generated code is covered by the stack-bound rules, not by the call graph.",
         "DESIGN.md §4 C07"),
 "C09": ("memo-key completeness and batch-association rules (AST), RCU identity rules",
         "Static necessary-condition check: no compile input outside the cache key, batch-loaded code associated by an injective key / position, pretouch loops in lock-step, cache compares type pointers. Observational equality of recompiled codecs is NOT decided.",
         "The encoder cache being keyed without the addressability flag is a recorded known finding (F-6).",
         "DESIGN.md §3.5 F-memo/F-batch, §4 C09"),
 "C20": ("def-use / must-order rules on the three retry loops (Go AST and emitted x86 template) and utf8.CorrectWith",
         "Restart-protocol clause only: produced-count added before the result test, complement, additive cursor, grow, re-entry with the advanced cursor; copy cursor resynchronised and position list reset in CorrectWith. The escape tables, surrogate handling and the UTF-8 automaton are native and NOT decided.",
         "Trusts the natives' reporting convention (negative result = ~consumed, dn = produced).",
         "DESIGN.md §4 C20"),
 "C03": ("abstract interpretation of the encoder IR compiler (branches resolved, stack balanced, depth tags); opcode totality in both executors; kind / map-key / stringize parity; post-pass twins; Marshaler dispatch order",
         "Static necessary-condition check of the encoder's compiled programs and of the tables that must agree with encoding/json's contract (supported kinds, `,string` kinds, Marshaler priority) and between the two entry paths. Emitted token text, number text and escape text are NOT decided.",
         "resolver.typeFields (a port of encoding/json) is not compared with GOROOT. Float map keys accepted only on the unsorted path are a recorded known finding (F-17).",
         "DESIGN.md §3.2, §3.6, §4 C03"),
 "C04": ("must-precede guards on emitted x86 templates (CFG reachability) and on VM arms / Go primitives (structural dominance); bit-vs-mask rule; restart protocol; output budget",
         "Error-path and overflow clauses only: NaN/Inf, invalid json.Number, unsupported kinds and the nesting limit reach an error in both executors; user Marshaler output is validated unless explicitly disabled; option bits are tested as masks; the buffer-full restart protocol and the output-space budget hold. Well-formedness of emitted text in general and round-trip equality are NOT decided.",
         "Trusts the native formatters to emit well-formed text within their documented maximum lengths.",
         "DESIGN.md §3.2 A2, §4 C04"),
 "C11": ("sibling agreement between jitdec and optdec: option-bit consumer parity, kind sets, front-end guard sets, selection wiring, base agreement, restore-on-all-exits (go/cfg), unmarshaler-before-fast-path ordering",
         "Static necessary-condition check that the alternative decoder consumes the same option bits, supports the same kinds, performs the same pre-checks, is switched in as a whole, bases its parser state at data[pos:], restores temporarily changed options on every exit and checks custom unmarshalers before kind fast paths. Equality of decoded values is NOT decided.",
         "optdec ignoring UseUnicodeErrors is a recorded known finding (F-7). native parse_with_padding is not analysed.",
         "DESIGN.md §4 C11"),
 "C12": ("sibling agreement between the x86 emitter and the VM: opcode totality, branch-op agreement, option-bit parity, nesting-bound agreement, operand widths, guards, shared post-pass, VM-only primitives (restart protocol), pretouch work-list flags",
         "Static necessary-condition check that both encoder back ends cover the same opcodes with the same control-flow meaning, test the same option bits, use the same operand widths and guards, share the nesting limit, and that VM-only code paths (alg.Quote, pretouchRec) follow the same protocols. Byte-identical output is NOT decided.",
         "Shared Go primitives are the same objects in both executors (checked by W5e's consumer table).",
         "DESIGN.md §4 C12"),
 "C19": ("width rows over the jitdec handlers / encoder handlers / VM arms (token, range-helper, store-width and sibling agreement); output budget of native integer writers",
         "Width and selection clauses only: each narrow decode applies the range check of its own width (value and map-key opcodes agree), stores and operand loads use that width in JIT and VM, native integer/float writers get room for their longest output. Correct rounding, shortest digits and overflow detection happen inside natives that exist only as byte arrays and are NOT decided.",
         "native vsigned/vunsigned/vnumber/f64toa/f32toa are not analysed; a change inside the *_text_amd64.go byte arrays is invisible to this technique.",
         "DESIGN.md §4 C19"),
}

NOT_YET = {}

ENGINE = {}
for r in "I0 I1 I2 I3 G1 G2 G3 G4 G5".split(): ENGINE[r] = "abstract interpretation of the IR-emitting compilers (Go-level path enumeration, emitted-IR control flow)"
for r in "A1 A5 A6 A7 A8 A9 B1 K6 K10 W8 S13 S16 S2b P1 A2".split(): ENGINE[r] = "dataflow / abstract interpretation over the emitted x86 templates (helpers inlined under constant bindings)"
for r in "E1 E4 E6 L1 L2 L3 O1 O2 D2 B2 N1".split(): ENGINE[r] = "go/cfg dataflow (locksets, pool typestate with alias tokens, must-use, bounds facts)"
for r in "O6 O7 A4".split(): ENGINE[r] = "Go-level path enumeration (definite assignment, check-before-use on every path)"
ENGINE["R9"] = "go/ssa + VTA call graph, strongly connected components, structural depth-guard check"
ENGINE["S11"] = "decision-sequence comparison with the standard library sources in GOROOT"

def rules_of():
    out = {}
    try:
        txt = subprocess.check_output(['/verif/bin/sonicsa', '-list'], stderr=subprocess.DEVNULL).decode()
    except Exception:
        return out
    for l in txt.splitlines():
        if len(l) > 4 and l[0] == 'C' and l[3] == ':':
            out[l[:3]] = l[4:].split()
    return out
RULES = rules_of()

def technique(pid, tech):
    rs = RULES.get(pid, [])
    engines = []
    for r in rs:
        e = ENGINE.get(r, "AST + go/types table, sibling-agreement and constant-relation rules")
        if e not in engines:
            engines.append(e)
    t = "static analysis: " + tech
    if rs:
        t += " || engines: " + "; ".join(engines) + " || rules: " + " ".join(sorted(rs))
    return t

def main():
    props = [json.loads(l) for l in open('/verif/properties.jsonl')]
    checks = []
    na = []
    for p in props:
        pid = p['id']
        if pid in CLAIMS:
            tech, text, note, ref = CLAIMS[pid]
            checks.append({
                "property_id": pid,
                "quick_cmd": f"/verif/bin/check {pid} quick",
                "thorough_cmd": f"/verif/bin/check {pid} thorough",
                "evidence_file": f"/verif/evidence/{pid}.json",
                "replay_cmd_template": "/verif/bin/check --replay {path}",
                "engine": "sonicsa",
                "level_claimed": {"category": "other", "text": text + " Further necessary conditions added while the check was exercised against seeded changes and defect hunts (rounds 2-5) are listed by rule id under `technique`; each rule's statement is quoted in the evidence file and tabulated in DESIGN.md §8.", "design_ref": ref + ", §8"},
                "level_note": note,
                "technique": technique(pid, tech),
            })
        else:
            na.append({"property_id": pid, "reason": NOT_YET.get(pid, "static rules for this property are designed (DESIGN.md §4) but not built yet in this round; nothing is claimed until the checker exists")})
    m = {
        "version": 1,
        "setup_cmd": "cd /verif/sa && GOFLAGS=-mod=mod GOPROXY=off GOSUMDB=off GOTOOLCHAIN=local go build -o /verif/bin/sonicsa ./cmd/sonicsa",
        "hooks": {"guard": "verif", "enable": "none needed: the checks only read /repo's source (go/packages type-check); nothing in /repo is built with a tag or executed",
                  "baseline_off_cmd": "cd /repo && go test -vet=off -count=1 ./... && cd loader && go test -vet=off -count=1 ./...",
                  "source_commits": [], "add_only": True},
        "engines": [{"name": "sonicsa", "path": "/verif/sa", "serves_properties": sorted(CLAIMS),
                     "kind_free_text": "repository-specific static analyser (go/packages + go/types + go/cfg + go/ssa/VTA, x/tools v0.29.0): rule engines wire/irt/asm/own/lock/const/sib/flow producing obligations keyed by rule+construct"}],
        "checks": checks,
        "not_applicable": na,
        "notes": "All checks are static (source-only) necessary-condition checks at level 'other'; see DESIGN.md. known_findings.json lists genuine defects (known/fixed).",
    }
    json.dump(m, open('/verif/MANIFEST.json', 'w'), indent=1)
    print("claimed:", sorted(CLAIMS), "not_applicable:", [x['property_id'] for x in na])

main()
