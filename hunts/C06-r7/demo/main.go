// demo2: what sonic.Get([]byte) returns must not alias the caller's input buffer.
// On a syntax error the returned ast.SyntaxError keeps a string header that points
// straight into the caller's []byte, so the error (its Src field and the text of
// Error()) changes when the caller reuses the buffer.
package main

import (
	"fmt"
	"os"

	"github.com/bytedance/sonic"
	"github.com/bytedance/sonic/ast"
)

func main() {
	buf := []byte(`{"name":"alice","ok":tru }`)
	_, err := sonic.Get(buf, "ok")
	if err == nil {
		fmt.Println("unexpected: no error")
		os.Exit(2)
	}
	before := err.Error()
	var srcBefore string
	if se, ok := err.(ast.SyntaxError); ok {
		srcBefore = string(append([]byte(nil), se.Src...))
	}

	// the caller reuses its buffer (e.g. a pooled network read buffer)
	copy(buf, `{"password":"hunter2"}#####`)

	after := err.Error()
	bad := false
	if before != after {
		fmt.Printf("error text returned by sonic.Get([]byte) changed after the input buffer was reused:\n  before: %q\n  after:  %q\n", before, after)
		bad = true
	}
	if se, ok := err.(ast.SyntaxError); ok && se.Src != srcBefore {
		fmt.Printf("SyntaxError.Src aliases the caller's buffer: was %q, now %q\n", srcBefore, se.Src)
		bad = true
	}
	if bad {
		os.Exit(1)
	}
	fmt.Println("ok")
}
