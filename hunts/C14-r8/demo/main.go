package main

import (
	"encoding/json"
	"fmt"
	"os"

	"github.com/bytedance/sonic/ast"
)

// An object node built with ast.NewObject from pairs written as ast.Pair{Key: k, Value: v}
// (the unexported hash field stays 0) loses every key for Get/IndexOrGet/Set/Unset as soon
// as it has more than 16 pairs: newObject -> BuildIndex indexes the pairs by p.hash (all 0),
// and linkedPairs.Get answers "not found" from the index without the linear search.
// The very same node still lists all pairs through Raw/MarshalJSON/Index/ForEach, and
// encoding/json finds every key in the text the node marshals to.
func main() {
	bad := 0
	for _, n := range []int{16, 17, 40} {
		var ps []ast.Pair
		for i := 0; i < n; i++ {
			ps = append(ps, ast.Pair{Key: fmt.Sprintf("k%d", i), Value: ast.NewNumber(fmt.Sprint(i))})
		}
		obj := ast.NewObject(ps)
		text, err := obj.MarshalJSON()
		if err != nil {
			panic(err)
		}
		var ref map[string]interface{}
		if err := json.Unmarshal(text, &ref); err != nil {
			panic(err)
		}
		reparsed := ast.NewRaw(string(text))
		for i := 0; i < n; i++ {
			k := fmt.Sprintf("k%d", i)
			want, ok := ref[k]
			got := obj.Get(k)
			gv, gerr := got.Float64()
			rv, _ := reparsed.Get(k).Float64()
			if !ok || rv != want.(float64) {
				panic("reference disagreement")
			}
			if !got.Exists() || gerr != nil || gv != want.(float64) {
				if bad < 6 {
					fmt.Printf("VIOLATION: object with %d pairs, Get(%q): exists=%v value=%v err=%v; encoding/json on the node's own text finds %v, Index(%d) holds %v\n",
						n, k, got.Exists(), gv, gerr, want, i, func() string { r, _ := obj.Index(i).Raw(); return r }())
				}
				bad++
			}
		}
		// consequence for mutation: Set of an existing key appends a duplicate member
		if n > 16 {
			obj.Set("k3", ast.NewNumber("333"))
			out, _ := obj.MarshalJSON()
			var cnt int
			dec := json.NewDecoder(bytesReader(out))
			for {
				t, err := dec.Token()
				if err != nil {
					break
				}
				if s, ok := t.(string); ok && s == "k3" {
					cnt++
				}
			}
			if cnt != 1 {
				fmt.Printf("VIOLATION: object with %d pairs, after Set(\"k3\", 333) the text holds the member \"k3\" %d times\n", n, cnt)
				bad++
			}
		}
	}
	if bad > 0 {
		fmt.Printf("%d violations\n", bad)
		os.Exit(1)
	}
	fmt.Println("ok")
}

type br struct {
	b []byte
	i int
}

func (r *br) Read(p []byte) (int, error) {
	if r.i >= len(r.b) {
		return 0, fmt.Errorf("EOF")
	}
	n := copy(p, r.b[r.i:])
	r.i += n
	return n, nil
}

func bytesReader(b []byte) *br { return &br{b: b} }
