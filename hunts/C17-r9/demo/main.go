// Hunt result for property C17 on the unmodified tree.
//
// When a json.Unmarshaler / encoding.TextUnmarshaler of a nested field refuses
// its value, StreamDecoder.Decode reports that (non-syntax) error and "goes on
// behind the value" - but it advances only by Decoder.Pos(), which at that
// moment stands in the MIDDLE of the framed value (right behind the refused
// field). The next Decode therefore starts on the rest of the first value
// (`,"C":[1,2]} ...` or `} ...`): it reports io.EOF or a sticky syntax error,
// and the well-formed values that follow are lost. Decoding value by value
// (and encoding/json.Decoder) report the refusal for value 1 and then deliver
// value 2.
package main

import (
	"encoding/json"
	"errors"
	"fmt"
	"io"
	"os"
	"strings"

	"github.com/bytedance/sonic"
	"github.com/bytedance/sonic/decoder"
)

type Odd struct{ v string }

func (u *Odd) UnmarshalJSON(b []byte) error {
	if string(b) == "1" {
		return errors.New("odd: refused")
	}
	u.v = string(b)
	return nil
}

type Rec struct {
	B int
	A Odd
	C []int
}

type streamDecoder interface{ Decode(interface{}) error }

func run(d streamDecoder) []string {
	var out []string
	for i := 0; i < 4; i++ {
		var v Rec
		err := d.Decode(&v)
		switch {
		case err == nil:
			out = append(out, fmt.Sprintf("value{B:%d A:%s C:%v}", v.B, v.A.v, v.C))
		case err == io.EOF:
			out = append(out, "EOF")
		case err.Error() == "odd: refused":
			out = append(out, "refused")
		default:
			out = append(out, "error("+strings.SplitN(err.Error(), "\n", 2)[0]+")")
		}
	}
	return out
}

func main() {
	bad := false
	for _, in := range []string{
		`{"B":2,"A":1,"C":[1,2]} {"B":4,"A":3,"C":[5]}`,
		`{"B":2,"A":1} {"B":4,"A":3,"C":[5]}`,
	} {
		// value by value on the concatenated input
		var ref []string
		for _, one := range []string{in[:strings.Index(in, "} {")+1], in[strings.Index(in, "} {")+2:]} {
			var v Rec
			if err := sonic.UnmarshalString(one, &v); err != nil {
				ref = append(ref, "refused")
			} else {
				ref = append(ref, fmt.Sprintf("value{B:%d A:%s C:%v}", v.B, v.A.v, v.C))
			}
		}
		ref = append(ref, "EOF", "EOF")
		std := run(json.NewDecoder(strings.NewReader(in)))
		got := run(decoder.NewStreamDecoder(strings.NewReader(in)))
		if strings.Join(got, " | ") != strings.Join(ref, " | ") {
			bad = true
			fmt.Printf("VIOLATION input=%s\n  value by value (sonic.Unmarshal): %s\n  encoding/json.Decoder           : %s\n  sonic StreamDecoder             : %s\n",
				in, strings.Join(ref, " | "), strings.Join(std, " | "), strings.Join(got, " | "))
		}
	}
	if bad {
		os.Exit(1)
	}
	fmt.Println("OK")
}
