// Hunt demo for property C07: a Go value of a small, perfectly legal type makes sonic.Marshal
// hang (and eat memory without bound).
//
// The encoder's IL compiler emits the code of a slice element type twice (once for the first
// element, once for "',' + next element"; internal/encoder/compiler.go compileSliceArray), and
// the same holds for map values (compileMapBody). For a nested slice type [][]...[]int of depth
// d the IL program therefore has ~2^d instructions: the only size cut-off (MAX_ILBUF) is checked
// in compileStruct alone. encoding/json handles such a type instantly.
//
// Part 1 (deterministic, cheap): IL size per depth, must not double per level.
// Part 2: sonic.Marshal of a nil [][]...[]int of depth 40 under a watchdog (time and memory).
package main

import (
	"encoding/json"
	"fmt"
	"os"
	"reflect"
	"runtime"
	"time"

	"github.com/bytedance/sonic"
	ienc "github.com/bytedance/sonic/internal/encoder"
)

func nested(depth int) reflect.Type {
	t := reflect.TypeOf(0)
	for i := 0; i < depth; i++ {
		t = reflect.SliceOf(t)
	}
	return t
}

func main() {
	bad := false
	sizes := map[int]int{}
	for _, d := range []int{4, 8, 12} {
		p, err := ienc.NewCompiler().Compile(nested(d), false)
		if err != nil {
			fmt.Printf("compile depth %d: %v\n", d, err)
			continue
		}
		sizes[d] = len(p)
		fmt.Printf("encoder IL size for a %d-deep slice type: %d instructions\n", d, len(p))
	}
	if sizes[12] > 8*sizes[8] {
		fmt.Printf("VIOLATION: encoder program size is exponential in the nesting depth of slice types (%d -> %d instructions for depth 8 -> 12)\n", sizes[8], sizes[12])
		bad = true
	}

	const depth = 40
	v := reflect.New(nested(depth)).Interface() // *[][]...[]int, nil slice inside
	t0 := time.Now()
	if out, err := json.Marshal(v); err != nil || string(out) != "null" {
		fmt.Println("unexpected encoding/json result", string(out), err)
	}
	fmt.Printf("encoding/json.Marshal of a %d-deep nil slice: %v\n", depth, time.Since(t0))

	done := make(chan string, 1)
	go func() {
		out, err := sonic.Marshal(v)
		done <- fmt.Sprintf("%s %v", out, err)
	}()
	t0 = time.Now()
	tick := time.NewTicker(100 * time.Millisecond)
loop:
	for {
		select {
		case r := <-done:
			fmt.Printf("sonic.Marshal returned %s after %v\n", r, time.Since(t0))
			break loop
		case <-tick.C:
			var ms runtime.MemStats
			runtime.ReadMemStats(&ms)
			if ms.Sys > 1<<30 || time.Since(t0) > 60*time.Second {
				fmt.Printf("VIOLATION: sonic.Marshal(%d-deep [][]..[]int) still compiling after %v, process holds %d MB (hang / unbounded memory)\n",
					depth, time.Since(t0).Round(time.Millisecond), ms.Sys>>20)
				os.Exit(1)
			}
		}
	}
	if bad {
		os.Exit(1)
	}
	fmt.Println("OK")
}
