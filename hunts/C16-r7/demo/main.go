// demo2: on a concurrently readable node, a read (Interface / Array / MarshalJSON) must give
// the same result as in a single-threaded run, whatever the other goroutines are doing.
//
// When a child of the shared node cannot be converted from raw to parsed form, the failed
// conversion publishes a V_ERROR node in the child's slot. The iterators and the encoder skip
// every child for which Exists() is false - and Exists() is false for V_ERROR - so from then on
// the parent "reads" fine: the broken element is silently dropped and the error is gone. The
// result of a read therefore depends on whether some other goroutine happened to touch the
// child first.
package main

import (
	"fmt"
	"os"
	"sync"

	"github.com/bytedance/sonic/ast"
)

const doc = `{"k":[1,{"a":tru},2]}`

func shared() *ast.Node {
	s := ast.NewSearcher(doc)
	s.ValidateJSON = false // documented option: the caller does not pay for validation
	s.ConcurrentRead = true
	n, err := s.GetByPath("k")
	if err != nil {
		fmt.Println("unexpected:", err)
		os.Exit(2)
	}
	return &n
}

func read(n *ast.Node) string {
	v, err := n.Interface()
	a, err2 := n.Array()
	j, err3 := n.MarshalJSON()
	return fmt.Sprintf("Interface=%v err=%v | Array=%v err=%v | MarshalJSON=%s err=%v", v, err != nil, a, err2 != nil, j, err3 != nil)
}

func main() {
	/* the single-threaded run: one reader on a fresh node */
	want := read(shared())

	bad := 0
	var example string

	/* interleaving 1: reader A completes, then reader B (another goroutine) reads */
	{
		n := shared()
		done := make(chan string)
		go func() { done <- read(n) }()
		a := <-done
		go func() { done <- read(n) }()
		b := <-done
		if a != want || b != want {
			bad++
			example = "sequential interleaving:\n  reader A: " + a + "\n  reader B: " + b
		}
	}

	/* interleaving 2: eight readers at once, many times */
	for r := 0; r < 200; r++ {
		n := shared()
		res := make([]string, 8)
		var wg sync.WaitGroup
		start := make(chan struct{})
		for g := range res {
			g := g
			wg.Add(1)
			go func() { defer wg.Done(); <-start; res[g] = read(n) }()
		}
		close(start)
		wg.Wait()
		for _, x := range res {
			if x != want {
				bad++
				if example == "" {
					example = "concurrent readers:\n  one reader: " + x
				}
			}
		}
	}

	if bad != 0 {
		fmt.Printf("VIOLATION: %d reads of a ConcurrentRead node differ from the single-threaded run\n  single-threaded: %s\n%s\n", bad, want, example)
		os.Exit(1)
	}
	fmt.Println("ok: every read equals the single-threaded result:", want)
}
