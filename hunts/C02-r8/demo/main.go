package main

import (
	"encoding/json"
	"fmt"
	"os"

	"github.com/bytedance/sonic"
	"github.com/bytedance/sonic/ast"
)

// The lazy ast parser (ast.NewParser(s).Parse(), the default parser configuration)
// walks a container one child at a time in skipNextNode / skipNextPair. Those steps
//   - accept ']' / '}' at the start of EVERY step, i.e. also right after a ',';
//   - on a bad separator return an error node but keep the child and leave the cursor on
//     the offending byte, so the next step simply carries on with it as the next child;
// and ForEach / the iterators take the error node for "end of container" and return nil.
// So a malformed document is accepted (and re-serialised as if it had been well formed)
// once the node has been touched by a lazy step, while the same text is rejected by
// sonic.Valid, encoding/json and by LoadAll() on a fresh node.
func main() {
	bad := 0
	fail := func(f string, a ...interface{}) { bad++; fmt.Printf("VIOLATION: "+f+"\n", a...) }

	docs := []string{`[1,]`, `[1 2]`, `[1,2 3,]`, `{"a":1,}`, `{"a":1 "b":2}`, `[1,2,]`}
	for _, d := range docs {
		if json.Valid([]byte(d)) || sonic.ValidString(d) {
			fmt.Printf("test bug: %q is valid\n", d)
			os.Exit(2)
		}
		/* reference: a fresh node loaded in one go rejects the text */
		ref, _ := ast.NewParser(d).Parse()
		if ref.LoadAll() == nil {
			fmt.Printf("note: LoadAll on a fresh node accepts %q as well\n", d)
		}

		/* history 1: ForEach first */
		n, perr := ast.NewParser(d).Parse()
		cnt := 0
		ferr := n.ForEach(func(_ ast.Sequence, _ *ast.Node) bool { cnt++; return true })
		out, merr := n.MarshalJSON()
		iv, ierr := n.Interface()
		if perr == 0 && ferr == nil && merr == nil && ierr == nil && n.Check() == nil {
			fail("%q: Parse ok, ForEach visited %d children and returned nil, Check()=nil, MarshalJSON=%s, Interface=%v - malformed text accepted", d, cnt, out, iv)
		}

		/* history 2: one indexed / keyed access first */
		m, _ := ast.NewParser(d).Parse()
		if m.TypeSafe() == ast.V_ARRAY {
			_ = m.Index(0)
		} else {
			_ = m.Get("a")
		}
		out2, merr2 := m.MarshalJSON()
		if merr2 == nil && m.Check() == nil {
			fail("%q: first child fetched lazily, then MarshalJSON=%s with nil error - malformed text accepted", d, out2)
		}
	}

	/* truncated / broken documents: ForEach stops silently and reports success */
	for _, d := range []string{`[1,2`, `[1,,2]`, `{"a":1,"b":2`, `{"a":1,"b" 2}`} {
		n, _ := ast.NewParser(d).Parse()
		cnt := 0
		ferr := n.ForEach(func(_ ast.Sequence, _ *ast.Node) bool { cnt++; return true })
		if ferr == nil && n.Check() == nil {
			fail("%q: ForEach visited %d children and returned a nil error (Check()=nil): the syntax error was taken for the end of the container", d, cnt)
		}
	}

	/* valid text must still work */
	n, _ := ast.NewParser(`[1,2]`).Parse()
	cnt := 0
	if err := n.ForEach(func(_ ast.Sequence, _ *ast.Node) bool { cnt++; return true }); err != nil || cnt != 2 {
		fail("valid [1,2]: ForEach cnt=%d err=%v", cnt, err)
	}

	if bad != 0 {
		os.Exit(1)
	}
	fmt.Println("ok")
}
