package main

import (
	"encoding/json"
	"fmt"
	"math"
	"os"
	"strconv"

	"github.com/bytedance/sonic"
)

// A JSON number literal decoded into a float32 must be the float32 nearest to
// the literal (strconv.ParseFloat(s, 32), which is what encoding/json stores).
// The literals below lie just above the midpoint of two neighbouring float32
// values, by less than half a float64 ulp.
func main() {
	lits := []string{
		"1.0000000596046448", // 1 + 2^-24 + 2.2e-17: nearest float32 is 1.0000001 (0x3f800001)
		"16777217.000000001", // 2^24 + 1 + 1e-9: nearest float32 is 16777218
		"8.39657141966694572e-23",
		"-1.0000000596046448",
		"3.4028235677973365e38",                 // below the midpoint of MaxFloat32 and 2^128: MaxFloat32, sonic reports out of range
		"7.0064923216240853546186479164496e-46", // above half of the smallest subnormal: 1e-45, sonic stores 0
	}
	type S struct {
		F float32
		Q float32 `json:",string"`
	}
	bad := 0
	report := func(what, lit string, got float32, err error, want float32) {
		if err != nil || math.Float32bits(got) != math.Float32bits(want) {
			fmt.Printf("VIOLATION %s %s: sonic=%v (0x%08x) err=%v, strconv.ParseFloat(s,32)/encoding/json=%v (0x%08x)\n",
				what, lit, got, math.Float32bits(got), err, want, math.Float32bits(want))
			bad++
		}
	}
	for _, l := range lits {
		w64, _ := strconv.ParseFloat(l, 32)
		want := float32(w64)
		var std float32
		if err := json.Unmarshal([]byte(l), &std); err != nil || std != want {
			fmt.Println("unexpected: encoding/json disagrees with ParseFloat", l, std, err)
			os.Exit(2)
		}
		var a float32
		err := sonic.UnmarshalString(l, &a)
		report("float32", l, a, err, want)

		var s S
		err = sonic.UnmarshalString(`{"F":`+l+`,"Q":"`+l+`"}`, &s)
		report("struct field", l, s.F, err, want)
		report("struct field ,string", l, s.Q, err, want)

		var sl []float32
		err = sonic.UnmarshalString(`[`+l+`]`, &sl)
		if len(sl) == 1 {
			report("[]float32", l, sl[0], err, want)
		}
	}
	if bad > 0 {
		fmt.Printf("%d float32 destinations received a value that is not the float32 nearest to the literal (the literal is rounded to float64 first and then narrowed)\n", bad)
		os.Exit(1)
	}
	fmt.Println("ok")
}
