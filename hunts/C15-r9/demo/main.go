// Hunt demo (clean tree): reading a COPY of a partially loaded (lazy) child breaks the original.
//
// Only read operations are used. A plain tree model answers every one of them the same
// way whatever was read before; sonic does not:
//
//	root := NewRaw(`{"a":[1,2,3],"b":true}`)
//	root.Get("a").Index(0)          // child "a" is now LAZY: 1 element parsed, parser parked after it
//	it, _ := root.Properties(); it.Next(&p)   // documented API, copies the child node by value
//	p.Value.MarshalJSON()           // the copy finishes the shared parser and turns itself into V_ARRAY
//	root.MarshalJSON()              // the original is still marked lazy, resumes the exhausted parser -> "eof" syntax error
//
// The same happens through ArrayUseNode / MapUseNode / ListIterator.Next / InterfaceUseNode,
// and with Len/Index/Get on the copy instead of MarshalJSON.
// If the child is still raw, or fully loaded, when it is copied, everything works:
// the lazy state is observable.
package main

import (
	"fmt"
	"os"

	"github.com/bytedance/sonic/ast"
)

const doc = `{"a":[1,2,3],"b":true}`

func scenario(touch func(child *ast.Node), name string) string {
	root := ast.NewRaw(doc)
	touch(root.Get("a"))

	// iterate with the documented copying iterator and read each copy
	it, err := root.Properties()
	if err != nil {
		return fmt.Sprintf("%s: Properties: %v", name, err)
	}
	var p ast.Pair
	for it.Next(&p) {
		out, err := p.Value.MarshalJSON()
		if err != nil {
			return fmt.Sprintf("%s: copy of %q: MarshalJSON: %v", name, p.Key, err)
		}
		want := map[string]string{"a": "[1,2,3]", "b": "true"}[p.Key]
		if string(out) != want {
			return fmt.Sprintf("%s: copy of %q = %s, want %s", name, p.Key, out, want)
		}
	}

	// the original must be unaffected by reads
	out, err := root.MarshalJSON()
	if err != nil {
		return fmt.Sprintf("%s: root.MarshalJSON after reading the copies: %v", name, err)
	}
	if string(out) != doc {
		return fmt.Sprintf("%s: root.MarshalJSON = %s, want %s", name, out, doc)
	}
	if n, err := root.Get("a").Len(); err != nil || n != 3 {
		// Len is only defined once loaded; force the load first
		if err2 := root.Get("a").Load(); err2 != nil {
			return fmt.Sprintf("%s: root.a.Load: %v", name, err2)
		}
	}
	if v, err := root.Get("a").Index(2).Int64(); err != nil || v != 3 {
		return fmt.Sprintf("%s: root.a[2] = %d, %v; want 3", name, v, err)
	}
	return ""
}

func main() {
	bad := false
	cases := []struct {
		name  string
		touch func(*ast.Node)
	}{
		{"child left raw", func(c *ast.Node) {}},
		{"child fully loaded", func(c *ast.Node) { c.Load() }},
		{"child partially loaded (Index(0))", func(c *ast.Node) { c.Index(0) }},
	}
	for _, c := range cases {
		if msg := scenario(c.touch, c.name); msg != "" {
			fmt.Println("VIOLATION", msg)
			bad = true
		}
	}
	if bad {
		os.Exit(1)
	}
	fmt.Println("OK")
}
