// demo2: escape sequences inside a JSON string literal must be decoded as
// encoding/json decodes them, wherever the literal is reached through
// Unmarshal. The default (JIT) decoder parses quoted numbers / booleans -
// integer map keys and `,string` fields - straight from the raw text between
// the quotes and never unquotes it, so an escaped digit (backslash u 0031) is not the digit 1 there.
package main

import (
	"encoding/json"
	"fmt"
	"os"
	"reflect"
	"strings"

	"github.com/bytedance/sonic"
)

type TS struct {
	N int         `json:"n,string"`
	F float64     `json:"f,string"`
	B bool        `json:"b,string"`
	P *int        `json:"p,string"`
	J json.Number `json:"j"`
}

func main() {
	bad := 0
	check := func(doc string, mk func() interface{}) {
		w, g := mk(), mk()
		we := json.Unmarshal([]byte(doc), w)
		ge := sonic.ConfigStd.Unmarshal([]byte(doc), g)
		if (we == nil) != (ge == nil) || (we == nil && !reflect.DeepEqual(w, g)) {
			bad++
			es := "<nil>"
			if ge != nil {
				es = strings.SplitN(ge.Error(), "\n", 2)[0]
			}
			fmt.Printf("MISMATCH %-22s into %T\n    encoding/json: %+v, err=%v\n    sonic        : %+v, err=%s\n",
				doc, w, reflect.ValueOf(w).Elem().Interface(), we, reflect.ValueOf(g).Elem().Interface(), es)
		}
	}
	mi := func() interface{} { return new(map[int]int) }
	mu := func() interface{} { return new(map[uint8]string) }
	ts := func() interface{} { return new(TS) }

	// controls: the same texts without escapes agree
	check(`{"1":1}`, mi)
	check(`{"n":"12","f":"1.5","b":"true","j":"7"}`, ts)

	// U("0031") is the six-character escape sequence backslash-u-0-0-3-1 (the digit 1)
	U := func(hex string) string { return "\\" + "u" + hex }

	// integer map keys written with escapes
	check(`{"`+U("0031")+`":1}`, mi)
	check(`{"1`+U("0032")+`":1}`, mi)
	check(`{"`+U("002d")+`1":1}`, mi)
	check(`{"`+U("0037")+`":"x"}`, mu)
	// `,string` scalars written with escapes
	check(`{"n":"`+U("0031")+`"}`, ts)
	check(`{"n":"1`+U("0032")+`"}`, ts)
	check(`{"f":"1`+U("002e")+`5"}`, ts)
	check(`{"b":"`+U("0074")+`rue"}`, ts)
	check(`{"p":"nul`+U("006c")+`"}`, ts)
	// json.Number taken from a string literal
	check(`{"j":"`+U("0031")+`"}`, ts)

	if bad != 0 {
		fmt.Printf("FAIL: %d documents decode differently from encoding/json\n", bad)
		os.Exit(1)
	}
	fmt.Println("ok")
}
