// demo2: ValidateString is documented to turn malformed string bytes into
// U+FFFD (and to reject raw control characters).  On the clean library it also
// changes what Decoder.Pos() means: jitdec.Decode replaces the decoder's
// source string by a corrected copy (every invalid byte becomes the three
// bytes of U+FFFD) and reports the position inside that private copy, so the
// offset no longer indexes the input the caller passed in.  A caller that
// walks a buffer of concatenated values with Pos() - the documented use of
// decoder.Decoder - resumes in the middle of the next value.
package main

import (
	"fmt"
	"os"

	"github.com/bytedance/sonic/decoder"
)

func run(validate bool, in string) (first string, pos int, second int, err error) {
	d := decoder.NewDecoder(in)
	if validate {
		d.ValidateString()
	}
	if err = d.Decode(&first); err != nil {
		return
	}
	pos = d.Pos()
	/* resume behind the first value using the reported offset, on the caller's own input */
	if pos > len(in) {
		err = fmt.Errorf("Pos()=%d is beyond the %d input bytes", pos, len(in))
		return
	}
	d2 := decoder.NewDecoder(in[pos:])
	err = d2.Decode(&second)
	return
}

func main() {
	in := "\"a\xffb\" 123" // one invalid byte in the first value, then a second value
	bad := false

	f0, p0, s0, e0 := run(false, in)
	fmt.Printf("without ValidateString: first=%q Pos=%d second=%d err=%v\n", f0, p0, s0, e0)
	f1, p1, s1, e1 := run(true, in)
	fmt.Printf("with    ValidateString: first=%q Pos=%d second=%d err=%v\n", f1, p1, s1, e1)

	if e0 != nil || p0 != 5 || s0 != 123 {
		fmt.Println("unexpected baseline")
		bad = true
	}
	if f1 != "a�b" {
		fmt.Println("ValidateString did not replace the invalid byte")
		bad = true
	}
	if p1 != p0 {
		fmt.Printf("VIOLATION: ValidateString moved Decoder.Pos() from %d to %d for the same input (offset counts bytes of an internal corrected copy)\n", p0, p1)
		bad = true
	}
	if e1 != nil || s1 != s0 {
		fmt.Printf("VIOLATION: resuming at Pos() decodes %d (err=%v) instead of %d\n", s1, e1, s0)
		bad = true
	}
	if bad {
		os.Exit(1)
	}
	fmt.Println("ok")
}
