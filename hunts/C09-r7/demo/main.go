// demo2: the compile option EncOnlyOmitNull given to one Pretouch call is baked into
// the cached encoder programs of only those types that this call happens to compile
// (the requested type, what is inlined into it, and RecursiveDepth further rounds).
// Struct types nested deeper are compiled lazily, on first use, by makeEncoderX86 with
// the default options. So one and the same Marshal call renders `omitempty` with two
// different meanings depending on nesting depth / RecursiveDepth / what was cached
// before, and the result of Marshal depends on the history of the process.
package main

import (
	"fmt"
	"os"
	"os/exec"
	"reflect"

	"github.com/bytedance/sonic"
	"github.com/bytedance/sonic/option"
)

type L7 struct {
	N int `json:"n,omitempty"`
}
type L6 struct {
	N int `json:"n,omitempty"`
	C L7  `json:"c"`
}
type L5 struct {
	N int `json:"n,omitempty"`
	C L6  `json:"c"`
}
type L4 struct {
	N int `json:"n,omitempty"`
	C L5  `json:"c"`
}
type L3 struct {
	N int `json:"n,omitempty"`
	C L4  `json:"c"`
}
type L2 struct {
	N int `json:"n,omitempty"`
	C L3  `json:"c"`
}
type L1 struct {
	N int `json:"n,omitempty"`
	C L2  `json:"c"`
}
type L0 struct {
	N int `json:"n,omitempty"`
	C L1  `json:"c"`
}

func run(mode string) string {
	switch mode {
	case "shallow":
		/* default RecursiveDepth (1) */
		must(sonic.Pretouch(reflect.TypeOf(L0{}), option.WithCompileEncOnlyOmitNull(true)))
	case "deep":
		must(sonic.Pretouch(reflect.TypeOf(L0{}), option.WithCompileEncOnlyOmitNull(true),
			option.WithCompileRecursiveDepth(10)))
	case "inline":
		must(sonic.Pretouch(reflect.TypeOf(L0{}), option.WithCompileEncOnlyOmitNull(true),
			option.WithCompileMaxInlineDepth(20)))
	case "warm":
		/* an unrelated earlier Marshal of an inner value, then the same Pretouch as "deep" */
		_, err := sonic.Marshal(L3{})
		must(err)
		must(sonic.Pretouch(reflect.TypeOf(L0{}), option.WithCompileEncOnlyOmitNull(true),
			option.WithCompileRecursiveDepth(10)))
	}
	out, err := sonic.Marshal(L0{})
	must(err)
	return string(out)
}

func must(err error) {
	if err != nil {
		fmt.Println("unexpected error:", err)
		os.Exit(2)
	}
}

func main() {
	if len(os.Args) == 2 {
		fmt.Print(run(os.Args[1]))
		return
	}

	/* every history runs in a fresh process: the caches start empty */
	res := map[string]string{}
	modes := []string{"shallow", "deep", "inline", "warm"}
	for _, m := range modes {
		out, err := exec.Command(os.Args[0], m).CombinedOutput()
		if err != nil {
			fmt.Printf("child %s failed: %v\n%s\n", m, err, out)
			os.Exit(2)
		}
		res[m] = string(out)
		fmt.Printf("%-8s %s\n", m, out)
	}

	bad := false
	for _, m := range modes[1:] {
		if res[m] != res[modes[0]] {
			bad = true
		}
	}
	if bad {
		fmt.Println("VIOLATION: Marshal(L0{}) after Pretouch(L0, EncOnlyOmitNull) depends on RecursiveDepth / MaxInlineDepth / earlier calls:")
		fmt.Println("  the option reaches only the types compiled by that Pretouch call; deeper or already cached types keep the other `omitempty` meaning")
		os.Exit(1)
	}
	fmt.Println("ok")
}
