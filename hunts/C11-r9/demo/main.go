// Hunt demo for property C11 on the UNCHANGED tree.
//
// A float field with the `,string` tag option: the default decoder (and encoding/json) accept
// only a JSON number inside the quotes; the alternative decoder (SONIC_USE_OPTDEC=1) hands the
// text to strconv.ParseFloat, which also takes "NaN", "inf", "Infinity", hex floats, a leading
// '+', ".5", "5.", "01" and "1_0". So the two implementations disagree on error-or-not, and the
// alternative one stores NaN / +Inf - values no JSON document can denote - in the destination.
package main

import (
	"bytes"
	"encoding/json"
	"fmt"
	"os"
	"os/exec"

	"github.com/bytedance/sonic"
)

type S struct {
	F float64 `json:"f,string"`
	G float32 `json:"g,string"`
}

var docs = []string{
	`{"f":"1.5"}`, // control, accepted by all
	`{"f":"NaN"}`,
	`{"f":"inf"}`,
	`{"f":"-Infinity"}`,
	`{"f":"0x1p-2"}`,
	`{"f":"+1.5"}`,
	`{"f":".5"}`,
	`{"f":"01"}`,
	`{"g":"NaN"}`,
}

func child() {
	for _, d := range docs {
		var v S
		err := sonic.Unmarshal([]byte(d), &v)
		var w S
		serr := json.Unmarshal([]byte(d), &w)
		fmt.Printf("%-20s sonic: err=%-5v F=%v G=%v | encoding/json: err=%v\n", d, err != nil, v.F, v.G, serr != nil)
	}
}

func run(env ...string) string {
	exe, err := os.Executable()
	if err != nil {
		panic(err)
	}
	cmd := exec.Command(exe)
	cmd.Env = append(append(os.Environ(), "C11_HUNT_CHILD=1"), env...)
	var out bytes.Buffer
	cmd.Stdout = &out
	cmd.Stderr = &out
	if err := cmd.Run(); err != nil {
		out.WriteString("child failed: " + err.Error() + "\n")
	}
	return out.String()
}

func main() {
	if os.Getenv("C11_HUNT_CHILD") == "1" {
		child()
		return
	}
	base := run("SONIC_USE_OPTDEC=0", "SONIC_USE_FASTMAP=0")
	bad := false
	for _, env := range [][]string{
		{"SONIC_USE_OPTDEC=1", "SONIC_USE_FASTMAP=0"},
		{"SONIC_USE_OPTDEC=1", "SONIC_USE_FASTMAP=1"},
	} {
		got := run(env...)
		if got != base {
			bad = true
			fmt.Printf("VIOLATION C11: %v disagrees with the default decoder on `,string` float fields\n--- default:\n%s--- %v:\n%s", env, base, env, got)
		}
	}
	if bad {
		os.Exit(1)
	}
	fmt.Print(base)
	fmt.Println("OK")
}
