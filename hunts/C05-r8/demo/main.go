package main

import (
	"fmt"
	"os"

	"github.com/bytedance/sonic"
)

func main() {
	bad := 0
	for _, in := range []string{`{"B":"aA="}`, `{"B":"aaaaaA="}`, `{"B":"aaaaaaaaaaA="}`, `{"B":"aGVsbG8="}`} {
		var v struct{ B []byte }
		func() {
			defer func() {
				if r := recover(); r != nil {
					fmt.Printf("%s: PANIC %v\n", in, r)
					bad++
				}
			}()
			err := sonic.Unmarshal([]byte(in), &v)
			fmt.Printf("%s: err=%v len=%d cap=%d\n", in, err, len(v.B), cap(v.B))
			if len(v.B) > cap(v.B) {
				fmt.Println("  VIOLATION: len > cap: the decoder wrote past the allocation")
				bad++
			}
		}()
	}
	if bad > 0 {
		os.Exit(1)
	}
}
